package main

// Section "notary" (C16): random call sequences of honest and dishonest clients against the real notary
// service object (hook constructor) wired to the real accountant, awaiting cache, challenge provider and
// verifier. Every call and what it returned is a trace line replayed on the Lean state machine
// `CModel.Notary`; after every call the real ledger's transaction set and the real awaiting cache are
// compared with the model's state (`ST`).

import (
	"crypto/sha256"
	"bytes"
	"context"
	"encoding/hex"
	"errors"
	"fmt"
	"sort"
	"strings"
	"sync"
	"sync/atomic"
	"time"

	"github.com/bartossh/Computantis/src/accountant"
	"github.com/bartossh/Computantis/src/cache"
	"github.com/bartossh/Computantis/src/dataprovider"
	"github.com/bartossh/Computantis/src/notaryserver"
	"github.com/bartossh/Computantis/src/pipe"
	pb "github.com/bartossh/Computantis/src/protobufcompiled"
	"github.com/bartossh/Computantis/src/spice"
	"github.com/bartossh/Computantis/src/transaction"
	"github.com/bartossh/Computantis/src/transformers"
	"github.com/bartossh/Computantis/src/wallet"
)

// recAcc records whether CreateLeaf was reached and what it said.
type recAcc struct {
	ab        *accountant.AccountingBook
	calls     atomic.Int64
	oks       atomic.Int64
	called    bool
	ok        bool
	balCalled bool
	balOk     bool
}

func (r *recAcc) Address() string { return r.ab.Address() }
func (r *recAcc) CreateLeaf(ctx context.Context, trx *transaction.Transaction) (accountant.Vertex, error) {
	v, err := r.ab.CreateLeaf(ctx, trx)
	r.calls.Add(1)
	r.called = true
	r.ok = err == nil
	if err == nil {
		r.oks.Add(1)
	}
	return v, err
}
func (r *recAcc) ReadTransactionByHash(ctx context.Context, h [32]byte) (transaction.Transaction, error) {
	return r.ab.ReadTransactionByHash(ctx, h)
}
func (r *recAcc) ReadDAGTransactionsByAddress(ctx context.Context, a string) ([]transaction.Transaction, error) {
	return r.ab.ReadDAGTransactionsByAddress(ctx, a)
}
func (r *recAcc) CalculateBalance(ctx context.Context, a string) (accountant.Balance, error) {
	b, err := r.ab.CalculateBalance(ctx, a)
	r.balCalled = true
	r.balOk = err == nil
	return b, err
}

// detFlash: the flashback throttle without a time window (the real one forgets after its life window).
type detFlash struct {
	mux     sync.Mutex
	set     map[string]bool
	removes atomic.Int64
}

func (f *detFlash) HasAddress(a string) (bool, error) {
	f.mux.Lock()
	defer f.mux.Unlock()
	ok := f.set[a]
	f.set[a] = true
	return ok, nil
}
func (f *detFlash) RemoveAddress(a string) error {
	f.mux.Lock()
	delete(f.set, a)
	f.mux.Unlock()
	f.removes.Add(1)
	return nil
}

// cntCache counts the asynchronous balance-cache calls so the harness can wait for them.
type cntCache struct {
	*cache.Hippocampus
	balOps atomic.Int64
	hit    bool
}

func (c *cntCache) RemoveBalance(a string) error {
	err := c.Hippocampus.RemoveBalance(a)
	c.balOps.Add(1)
	return err
}
func (c *cntCache) SaveBalance(a string, s spice.Melange) error {
	err := c.Hippocampus.SaveBalance(a, s)
	c.balOps.Add(1)
	return err
}
func (c *cntCache) ReadBalance(a string) (spice.Melange, error) {
	m, err := c.Hippocampus.ReadBalance(a)
	c.hit = err == nil
	return m, err
}

type notaryEnv struct {
	c       *Ctx
	w       *World
	node    *Node
	acc     *recAcc
	flash   *detFlash
	cache   *cntCache
	prov    *dataprovider.Cache
	srv     pb.NotaryAPIServer
	wallets []*wallet.Wallet
	ctx     context.Context
	// direct oracles, see state()
	prevState      string
	expectSame     string
	mustNotSeal    string
	mustNotSealLen int
	receiverOf     map[string]string // transaction hash -> receiver address, of every validly proposed transaction
}

const notaryDataSize = 48

func newNotaryEnv(c *Ctx) *notaryEnv {
	w := NewWorld(c)
	w.quiet = true
	n := w.NewNode()
	e := &notaryEnv{c: c, w: w, node: n, ctx: context.Background()}
	for i := 0; i < 5; i++ {
		e.wallets = append(e.wallets, w.NewWallet())
	}
	w.Genesis(n, e.wallets[0].Address(), spice.Melange{Currency: 1000})
	hc, err := cache.New(1000, 1024) // big enough that no bigcache shard log wraps (capacity eviction is outside the property)
	if err != nil {
		panic(err)
	}
	e.cache = &cntCache{Hippocampus: hc}
	e.flash = &detFlash{set: map[string]bool{}}
	e.prov = dataprovider.New(context.Background(), dataprovider.Config{Longevity: 1})
	e.acc = &recAcc{ab: n.ab}
	pp := pipe.New(1000, 1000)
	go func() {
		for {
			select {
			case <-pp.SubscribeToTrx():
			case <-pp.SubscribeToVrx():
			}
		}
	}()
	e.srv = notaryserver.VerifNewServer(e.prov, nopTele{}, nopLog{}, w.ver, e.acc, e.cache, e.flash, pp, notaryDataSize)
	c.Line("N %d", notaryDataSize)
	gen := n.ab.VerifSnapshot().Vertices[0]
	c.Line("NGEN %s", trxFields(&gen.Transaction))
	return e
}

func trxFields(t *transaction.Transaction) string {
	return fmt.Sprintf("%s %s %s %s %d %d %d %s %s %s", hexs([]byte(t.Subject)), hexs(t.Data), hexs([]byte(t.IssuerAddress)), hexs([]byte(t.ReceiverAddress)),
		uint64(t.CreatedAt.UnixNano()), t.Spice.Currency, t.Spice.SupplementaryCurrency, hexs(t.Hash[:]), sigTok(t.IssuerSignature), sigTok(t.ReceiverSignature))
}

func shFields(r *pb.SignedHash) string {
	return fmt.Sprintf("%s %s %s %s", hexs([]byte(r.Address)), hexs(r.Data), hexs(r.Hash), sigTok(r.Signature))
}

func respTag(err error) string {
	switch {
	case err == nil:
		return "ok"
	case errors.Is(err, notaryserver.ErrVerification):
		return "errVerification"
	case errors.Is(err, notaryserver.ErrProcessing):
		return "errProcessing"
	case errors.Is(err, notaryserver.ErrNoDataPresent):
		return "errNoData"
	case errors.Is(err, notaryserver.ErrThrottle):
		return "errThrottle"
	}
	return "errOther"
}

func hashesOf(ts []*pb.Transaction) string {
	var hs []string
	for _, t := range ts {
		hs = append(hs, hex.EncodeToString(t.Hash))
	}
	sort.Strings(hs)
	if len(hs) == 0 {
		return "-"
	}
	return strings.Join(hs, ",")
}

// settle waits for the goroutines a sealing call leaves behind (throttle and balance-cache clean-up).
func (e *notaryEnv) settle(flashWant, balWant int64) {
	for i := 0; i < 2000; i++ {
		if e.flash.removes.Load() >= flashWant && e.cache.balOps.Load() >= balWant {
			return
		}
		time.Sleep(100 * time.Microsecond)
	}
}

func (e *notaryEnv) lo() string {
	if !e.acc.called {
		return "-"
	}
	return fmt.Sprint(b2i(e.acc.ok))
}

func (e *notaryEnv) state() {
	snap := e.node.ab.VerifSnapshot()
	var sealed []string
	for _, v := range snap.Vertices {
		sealed = append(sealed, hex.EncodeToString(v.Transaction.Hash[:]))
	}
	sort.Strings(sealed)
	aw := map[string]bool{}
	for _, wl := range e.wallets {
		ts, _ := e.cache.Hippocampus.ReadTransactions(wl.Address())
		for _, t := range ts {
			aw[hex.EncodeToString(t.Hash[:])] = true
		}
	}
	var awl []string
	for h := range aw {
		awl = append(awl, h)
	}
	sort.Strings(awl)
	a := "-"
	if len(awl) > 0 {
		a = strings.Join(awl, ",")
	}
	e.c.Line("ST %s | %s", strings.Join(sealed, ","), a)
	// direct oracles (besides the replay on the model): a request that does not verify changes nothing;
	// a proposal carrying data is never sealed by the proposal itself
	cur := strings.Join(sealed, ",") + " | " + a
	if e.expectSame != "" && e.prevState != "" && cur != e.prevState {
		for _, pid := range []string{"C15", "C16"} {
			e.c.Violate(pid, "rejected-request-changed-state:"+e.expectSame, fmt.Sprintf("a %s request whose signatures do not verify changed the node: sealed | awaiting was [%s], is [%s]", e.expectSame, e.prevState, cur),
				map[string]interface{}{"section": "notary", "call": e.expectSame})
		}
	}
	if e.mustNotSeal != "" && !strings.Contains(strings.Split(e.prevState, " | ")[0], e.mustNotSeal) {
		for _, h := range sealed {
			if h == e.mustNotSeal {
				e.c.Violate("C16", "contract-sealed-by-proposal", fmt.Sprintf("a proposal carrying %d bytes of data was sealed into the ledger on the issuer signature alone (transaction %s)", e.mustNotSealLen, h[:8]),
					map[string]interface{}{"section": "notary", "call": "propose", "data_len": e.mustNotSealLen})
			}
		}
	}
	e.expectSame, e.mustNotSeal = "", ""
	e.prevState = cur
}


// provValid: the harness' own judgement of a signature, from recorded provenance (the way the Lean model
// judges): `sig` was produced by the key of the wallet with address `addr` over exactly `digest`.
func (e *notaryEnv) provValid(sig []byte, addr string, digest [32]byte) bool {
	p, ok := sigLogGet(sig)
	if !ok || len(sig) == 0 || p.digest != digest {
		return false
	}
	for _, wl := range e.wallets {
		if wl.Address() == addr {
			return bytes.Equal(wl.Public, p.key)
		}
	}
	return false
}

func (e *notaryEnv) trxValid(t *transaction.Transaction, withReceiver bool) bool {
	d := sha256.Sum256(t.GetMessage())
	if d != t.Hash || !e.provValid(t.IssuerSignature, t.IssuerAddress, d) {
		return false
	}
	return !withReceiver || e.provValid(t.ReceiverSignature, t.ReceiverAddress, d)
}

func (e *notaryEnv) propose(t *transaction.Transaction) error {
	p, err := transformers.TrxToProtoTrx(*t)
	if err != nil {
		panic(err)
	}
	e.acc.called = false
	if !e.trxValid(t, false) {
		e.expectSame = "propose"
	}
	if len(t.Data) > 0 {
		e.mustNotSeal, e.mustNotSealLen = hex.EncodeToString(t.Hash[:]), len(t.Data)
	}
	if e.receiverOf == nil {
		e.receiverOf = map[string]string{}
	}
	if _, seen := e.receiverOf[hex.EncodeToString(t.Hash[:])]; !seen && e.trxValid(t, false) {
		e.receiverOf[hex.EncodeToString(t.Hash[:])] = t.ReceiverAddress
	}
	f, b := e.flash.removes.Load(), e.cache.balOps.Load()
	_, rerr := e.srv.Propose(e.ctx, p)
	if rerr == nil && len(t.Data) == 0 {
		e.settle(f+2, b+2)
	}
	e.c.Line("PROPOSE %s | %s %s", trxFields(t), respTag(rerr), e.lo())
	e.state()
	return rerr
}

func (e *notaryEnv) confirm(t *transaction.Transaction) error {
	p, err := transformers.TrxToProtoTrx(*t)
	if err != nil {
		panic(err)
	}
	e.acc.called = false
	if !e.trxValid(t, true) {
		e.expectSame = "confirm"
	}
	f, b := e.flash.removes.Load(), e.cache.balOps.Load()
	_, rerr := e.srv.Confirm(e.ctx, p)
	if rerr == nil {
		e.settle(f+2, b+2)
	}
	e.c.Line("CONFIRM %s | %s %s", trxFields(t), respTag(rerr), e.lo())
	sealedBefore := strings.Split(e.prevState, " | ")[0]
	e.state()
	// a confirmation the service answers with an error has sealed nothing (whatever the reason of the refusal:
	// not awaiting here, refused by the ledger, signatures)
	// (the ledger may DROP an overdrawing tip while it refuses the call; what must not happen is that the refused
	// contract itself appears among the sealed transactions)
	th := hex.EncodeToString(t.Hash[:])
	if sealedNow := strings.Split(e.prevState, " | ")[0]; rerr != nil && sealedBefore != "" && strings.Contains(sealedNow, th) && !strings.Contains(sealedBefore, th) {
		for _, pid := range []string{"C15", "C16"} {
			e.c.Violate(pid, "refused-confirm-sealed", fmt.Sprintf("Confirm of %s was answered with %s, yet the transaction is now sealed in the ledger (data %d bytes)", th[:8], respTag(rerr), len(t.Data)),
				map[string]interface{}{"section": "notary", "call": "confirm", "response": respTag(rerr)})
		}
	}
	return rerr
}

func signedHash(signer *wallet.Wallet, address string, data []byte) *pb.SignedHash {
	d, s := recSigner{signer}.Sign(data)
	return &pb.SignedHash{Address: address, Data: data, Hash: d[:], Signature: s}
}

func (e *notaryEnv) reject(r *pb.SignedHash) error {
	e.acc.called = false
	if len(r.Hash) != 32 || sha256.Sum256(r.Data) != [32]byte(r.Hash) || !e.provValid(r.Signature, r.Address, [32]byte(r.Hash)) {
		e.expectSame = "reject"
	} else if rec, ok := e.receiverOf[hex.EncodeToString(r.Data)]; ok && rec != r.Address {
		e.expectSame = "reject-by-someone-else" // correctly signed, but not by the receiver of that contract
	}
	f, b := e.flash.removes.Load(), e.cache.balOps.Load()
	_, rerr := e.srv.Reject(e.ctx, r)
	if rerr == nil {
		e.settle(f+1, b+1)
	}
	e.c.Line("REJECT %s | %s %s", shFields(r), respTag(rerr), e.lo())
	e.state()
	return rerr
}

func (e *notaryEnv) data(addr string) []byte {
	blob, err := e.srv.Data(e.ctx, &pb.Address{Public: addr})
	if err != nil {
		panic(err)
	}
	e.c.Line("DATA %s | %s", hexs([]byte(addr)), hexs(blob.Blob))
	return blob.Blob
}

func (e *notaryEnv) expire() {
	time.Sleep(1050 * time.Millisecond)
	e.c.Line("EXPIRE")
}

// forget: the throttle window has passed (the real flashback memory drops entries after its life window)
func (e *notaryEnv) forget() {
	e.flash.mux.Lock()
	e.flash.set = map[string]bool{}
	e.flash.mux.Unlock()
	e.c.Line("FORGET")
}

func (e *notaryEnv) waiting(r *pb.SignedHash) (string, error) {
	out, err := e.srv.Waiting(e.ctx, r)
	hs := "-"
	if err == nil {
		hs = hashesOf(out.Array)
	}
	e.c.Line("WAITING %s | %s %s", shFields(r), respTag(err), hs)
	return hs, err
}

func (e *notaryEnv) history(r *pb.SignedHash) (string, error) {
	out, err := e.srv.TransactionsInDAG(e.ctx, r)
	hs := "-"
	if err == nil {
		hs = hashesOf(out.Array)
	}
	e.c.Line("HISTORY %s | %s %s", shFields(r), respTag(err), hs)
	return hs, err
}

func (e *notaryEnv) balance(r *pb.SignedHash) error {
	b := e.cache.balOps.Load()
	e.cache.hit = false
	e.acc.balCalled = false
	_, err := e.srv.Balance(e.ctx, r)
	if err == nil && !e.cache.hit {
		e.settle(0, b+1)
	}
	lb := "-" // the ledger was not asked
	if e.acc.balCalled {
		lb = fmt.Sprint(b2i(e.acc.balOk))
	}
	e.c.Line("BALANCE %s | %s %s", shFields(r), respTag(err), lb)
	return err
}

func (e *notaryEnv) saved(r *pb.SignedHash) error {
	out, err := e.srv.Saved(e.ctx, r)
	hs := "-"
	if err == nil {
		hs = hex.EncodeToString(out.Hash)
	}
	e.c.Line("SAVED %s | %s %s", shFields(r), respTag(err), hs)
	return err
}

func init() {
	sections["notary"] = func(c *Ctx) error {
		c.Rep.Rule = "random call sequences (propose / confirm / reject / data / waiting / history / balance / saved) by honest clients and by dishonest ones (signature by the wrong key, tampered content, missing / foreign / stale / re-issued challenge, cross-wired address, replayed requests, never-proposed confirmations, issuer or stranger rejecting) against the real notary service; then concurrent duplicate confirmations and rejections; non-trivial = distinct (call, client behaviour, response)"
		steps, expiries, rounds := 260, 2, 2
		if c.Tier == "thorough" {
			steps, expiries, rounds = 400, 2, 16
		}
		for round := 0; round < rounds; round++ {
			e := newNotaryEnv(c)
			rnd := c.Rnd
			W := e.wallets
			var contracts []transaction.Transaction // proposed contracts (issuer-signed)
			var confirms []transaction.Transaction  // confirmation requests sent earlier
			var rejects []*pb.SignedHash
			var anyTrx []transaction.Transaction
			chal := map[string][]byte{}    // last challenge per address
			oldChal := map[string][]byte{} // a superseded or expired one
			pick := func() *wallet.Wallet { return W[rnd.Intn(len(W))] }
			pick2 := func() (*wallet.Wallet, *wallet.Wallet) {
				a := rnd.Intn(len(W))
				b := (a + 1 + rnd.Intn(len(W)-1)) % len(W)
				return W[a], W[b]
			}
			note := func(call, behaviour string, err error) {
				c.Rep.Evals++
				c.Distinct(call + "/" + behaviour + "/" + respTag(err))
				c.Count(call + "." + respTag(err))
			}
			// a challenge that was USED still expires one longevity period after it was ISSUED (1 s here)
			if round == 0 {
				wl := W[1]
				ch := e.data(wl.Address())
				req := signedHash(wl, wl.Address(), ch)
				time.Sleep(600 * time.Millisecond)
				_, err1 := e.waiting(req)
				_, errH := e.history(req)
				time.Sleep(600 * time.Millisecond) // 1.2 s after the issue, 0.6 s after the last use
				e.c.Line("EXPIRE")
				_, err2 := e.waiting(req)
				_, err3 := e.history(req)
				note("waiting", "used-challenge-after-its-lifetime", err2)
				_ = errH
				// "accepted" = anything but the verification refusal (with nothing awaiting the call goes on to fail for another reason)
				acc := func(err error) bool { return respTag(err) != "errVerification" }
				_ = err3
				if acc(err1) && acc(err2) {
					c.Violate("C16", "used-challenge-outlives-its-issue-time", fmt.Sprintf("a challenge issued 1.2 s ago (longevity 1 s), used once at 0.6 s, is still accepted: waiting %v, history %v", err2, err3),
						map[string]interface{}{"section": "notary", "scenario": "used-challenge"})
				}
			}
			expireAt := map[int]bool{}
			for i := 0; i < expiries; i++ {
				expireAt[(i+1)*steps/(expiries+1)] = true
			}
			for step := 0; step < steps; step++ {
				if expireAt[step] {
					e.expire()
					for a, b := range chal {
						oldChal[a] = b
					}
					chal = map[string][]byte{}
				}
				switch k := rnd.Intn(100); {
				case k < 12: // honest transfer
					iss, rec := pick2()
					if rnd.Intn(3) > 0 {
						iss = W[0]
						if rec == iss {
							rec = W[1]
						}
					}
					t, _ := transaction.New("pay", spice.Melange{Currency: uint64(1 + rnd.Intn(40))}, nil, rec.Address(), recSigner{iss})
					anyTrx = append(anyTrx, t)
					note("propose", "transfer", e.propose(&t))
				case k < 26: // honest contract (sometimes too large, sometimes carrying spice)
					iss, rec := pick2()
					n := 1 + rnd.Intn(notaryDataSize)
					if rnd.Intn(8) == 0 {
						n = notaryDataSize + 1 + rnd.Intn(10)
					}
					m := spice.Melange{}
					if rnd.Intn(3) == 0 {
						iss = W[0]
						if rec == iss {
							rec = W[2]
						}
						m.Currency = uint64(1 + rnd.Intn(5))
					}
					if m.Currency == 0 && rnd.Intn(5) == 0 {
						rec = iss // a contract a wallet addresses to itself: it still needs ITS receiver signature
					}
					t, _ := transaction.New("deal", m, fill(c, n, false), rec.Address(), recSigner{iss})
					err := e.propose(&t)
					if err == nil {
						contracts = append(contracts, t)
					}
					anyTrx = append(anyTrx, t)
					note("propose", "contract", err)
				case k < 34: // dishonest propose
					iss, rec := pick2()
					other := pick()
					for other == iss {
						other = pick()
					}
					data := []byte(nil)
					if rnd.Intn(2) == 0 {
						data = fill(c, 8, false)
					}
					t, _ := transaction.New("pay", spice.Melange{Currency: uint64(1 + rnd.Intn(9))}, data, rec.Address(), recSigner{iss})
					beh := ""
					switch rnd.Intn(4) {
					case 0:
						beh = "signed-by-other-key"
						_, t.IssuerSignature = recSigner{other}.Sign(t.GetMessage())
					case 1:
						beh = "amount-tampered"
						t.Spice.Currency += 1000
					case 2:
						beh = "receiver-redirected"
						t.ReceiverAddress = other.Address()
					case 3:
						beh = "issuer-replaced"
						t.IssuerAddress = other.Address()
					}
					note("propose", beh, e.propose(&t))
				case k < 38 && len(anyTrx) > 0: // replayed propose
					t := anyTrx[rnd.Intn(len(anyTrx))]
					note("propose", "replay", e.propose(&t))
				case k < 52 && len(contracts) > 0: // confirm
					i := rnd.Intn(len(contracts))
					t := contracts[i]
					t.Data = append([]byte{}, t.Data...)
					var rec, other *wallet.Wallet
					for _, wl := range W {
						if wl.Address() == t.ReceiverAddress {
							rec = wl
						} else if wl.Address() != t.IssuerAddress {
							other = wl
						}
					}
					beh := "honest"
					switch rnd.Intn(8) {
					case 6:
						beh = "issuer-sig-corrupted-after-countersign"
						if _, err := t.Sign(recSigner{rec}, e.w.ver); err != nil {
							panic(err)
						}
						t.IssuerSignature = append([]byte{}, t.IssuerSignature...)
						t.IssuerSignature[rnd.Intn(len(t.IssuerSignature))] ^= 0x20
					case 7:
						beh = "issuer-sig-by-other-key-after-countersign"
						if _, err := t.Sign(recSigner{rec}, e.w.ver); err != nil {
							panic(err)
						}
						_, t.IssuerSignature = recSigner{other}.Sign(t.GetMessage())
					case 0:
						beh = "receiver-sig-by-other-key"
						_, t.ReceiverSignature = recSigner{other}.Sign(t.GetMessage())
					case 1:
						beh = "receiver-sig-missing"
					case 2:
						beh = "receiver-sig-is-issuer-sig"
						t.ReceiverSignature = t.IssuerSignature
					case 3:
						beh = "content-tampered-after-countersign"
						if _, err := t.Sign(recSigner{rec}, e.w.ver); err != nil {
							panic(err)
						}
						t.Data = append(t.Data, 1)
					default:
						if _, err := t.Sign(recSigner{rec}, e.w.ver); err != nil {
							panic(err)
						}
					}
					err := e.confirm(&t)
					confirms = append(confirms, t)
					note("confirm", beh, err)
				case k < 55: // confirm of a contract that was never proposed here
					iss, rec := pick2()
					t, _ := transaction.New("ghost", spice.Melange{}, fill(c, 6, false), rec.Address(), recSigner{iss})
					if _, err := t.Sign(recSigner{rec}, e.w.ver); err != nil {
						panic(err)
					}
					note("confirm", "never-proposed", e.confirm(&t))
				case k < 58 && len(confirms) > 0: // replayed confirm
					t := confirms[rnd.Intn(len(confirms))]
					note("confirm", "replay", e.confirm(&t))
				case k < 68 && len(contracts) > 0: // reject
					t := contracts[rnd.Intn(len(contracts))]
					var rec, iss, other *wallet.Wallet
					for _, wl := range W {
						switch wl.Address() {
						case t.ReceiverAddress:
							rec = wl
						case t.IssuerAddress:
							iss = wl
						default:
							other = wl
						}
					}
					if iss == nil {
						iss = rec // self-addressed contract
					}
					var r *pb.SignedHash
					beh := "honest"
					switch rnd.Intn(6) {
					case 0:
						beh = "by-issuer"
						r = signedHash(iss, iss.Address(), t.Hash[:])
					case 1:
						beh = "stranger-key-receiver-address"
						r = signedHash(other, rec.Address(), t.Hash[:])
					case 2:
						beh = "by-stranger"
						r = signedHash(other, other.Address(), t.Hash[:])
					case 3:
						beh = "receiver-signs-other-hash"
						h := fill(c, 32, false)
						r = signedHash(rec, rec.Address(), h)
					default:
						r = signedHash(rec, rec.Address(), t.Hash[:])
					}
					err := e.reject(r)
					rejects = append(rejects, r)
					note("reject", beh, err)
				case k < 70 && len(rejects) > 0:
					note("reject", "replay", e.reject(rejects[rnd.Intn(len(rejects))]))
				case k < 76: // challenge request (anyone may ask for anyone)
					a := pick().Address()
					if b, ok := chal[a]; ok {
						oldChal[a] = b
					}
					chal[a] = e.data(a)
					note("data", "request", nil)
				case k < 92: // authenticated reads
					who := pick()
					other := pick()
					for other == who {
						other = pick()
					}
					call := []string{"waiting", "history"}[rnd.Intn(2)]
					beh := "honest"
					var blob []byte
					signer := who
					switch rnd.Intn(7) {
					case 0:
						beh = "no-or-stale-challenge"
						blob = oldChal[who.Address()]
						if blob == nil {
							blob = fill(c, 128, false)
						}
					case 1:
						beh = "foreign-challenge"
						blob = chal[other.Address()]
						if blob == nil {
							blob = e.data(other.Address())
							chal[other.Address()] = blob
						}
					case 2:
						beh = "signed-by-other-key"
						signer = other
						blob = chal[who.Address()]
						if blob == nil {
							blob = e.data(who.Address())
							chal[who.Address()] = blob
						}
					default:
						blob = chal[who.Address()]
						if blob == nil {
							blob = e.data(who.Address())
							chal[who.Address()] = blob
						}
					}
					r := signedHash(signer, who.Address(), blob)
					var err error
					var got string
					if call == "waiting" {
						got, err = e.waiting(r)
					} else {
						got, err = e.history(r)
					}
					note(call, beh, err)
					if err == nil && beh != "honest" {
						c.Violate("C16", "unauthenticated-read:"+call+":"+beh, fmt.Sprintf("%s returned [%s] to a caller with %s", call, got, beh),
							map[string]interface{}{"section": "notary", "step": step, "round": round})
					}
				case k < 93:
					e.forget()
				case k < 97: // balance
					who := pick()
					other := pick()
					for other == who {
						other = pick()
					}
					beh := "honest"
					var r *pb.SignedHash
					switch rnd.Intn(5) {
					case 0:
						beh = "signed-by-other-key"
						r = signedHash(other, who.Address(), []byte(who.Address()))
					case 1:
						beh = "other-address-as-data"
						r = signedHash(other, who.Address(), []byte(other.Address()))
					case 2:
						beh = "challenge-instead-of-address"
						r = signedHash(who, who.Address(), fill(c, 128, false))
					default:
						r = signedHash(who, who.Address(), []byte(who.Address()))
					}
					err := e.balance(r)
					note("balance", beh, err)
					if err == nil && beh != "honest" {
						c.Violate("C16", "unauthenticated-read:balance:"+beh, "balance returned to a caller with "+beh,
							map[string]interface{}{"section": "notary", "step": step, "round": round})
					}
				default: // saved
					who := pick()
					var h []byte
					beh := "unknown-hash"
					if len(anyTrx) > 0 && rnd.Intn(3) > 0 {
						t := anyTrx[rnd.Intn(len(anyTrx))]
						h = t.Hash[:]
						beh = "known-trx"
					} else {
						h = fill(c, 32, false)
					}
					note("saved", beh, e.saved(signedHash(who, who.Address(), h)))
				}
			}

			// a balance already cached by its owner must still not be served to other keys
			for i := 0; i < 3; i++ {
				who, other := pick2()
				e.forget()
				note("balance", "honest", e.balance(signedHash(who, who.Address(), []byte(who.Address()))))
				for _, beh := range []string{"signed-by-other-key", "garbage-signature", "other-address-as-data"} {
					e.forget()
					var r *pb.SignedHash
					switch beh {
					case "signed-by-other-key":
						r = signedHash(other, who.Address(), []byte(who.Address()))
					case "garbage-signature":
						r = signedHash(who, who.Address(), []byte(who.Address()))
						r.Signature = fill(c, 64, false)
					default:
						r = signedHash(other, who.Address(), []byte(other.Address()))
					}
					err := e.balance(r)
					note("balance", "cached/"+beh, err)
					if err == nil {
						c.Violate("C16", "unauthenticated-read:balance:"+beh, "a cached balance was returned to a caller with "+beh,
							map[string]interface{}{"section": "notary", "scenario": "cached-balance", "round": round})
					}
				}
			}

			// concurrent duplicates: the same confirmation / rejection sent many times at once
			for dup := 0; dup < 6; dup++ {
				iss, rec := pick2()
				t, _ := transaction.New("race", spice.Melange{}, fill(c, 12, false), rec.Address(), recSigner{iss})
				if err := e.propose(&t); err != nil {
					continue
				}
				if _, err := t.Sign(recSigner{rec}, e.w.ver); err != nil {
					panic(err)
				}
				p, _ := transformers.TrxToProtoTrx(t)
				rj := signedHash(rec, rec.Address(), t.Hash[:])
				before := e.acc.oks.Load()
				var okN atomic.Int64
				var wg sync.WaitGroup
				for g := 0; g < 8; g++ {
					wg.Add(1)
					go func(g int) {
						defer wg.Done()
						var err error
						if dup%2 == 1 && g%2 == 1 {
							_, err = e.srv.Reject(e.ctx, rj)
						} else {
							_, err = e.srv.Confirm(e.ctx, p)
						}
						if err == nil {
							okN.Add(1)
						}
					}(g)
				}
				wg.Wait()
				time.Sleep(2 * time.Millisecond)
				sealedN := 0
				for _, v := range e.node.ab.VerifSnapshot().Vertices {
					if v.Transaction.Hash == t.Hash {
						sealedN++
					}
				}
				c.Rep.Evals++
				c.Distinct(fmt.Sprintf("concurrent-duplicates/%d", dup%2))
				c.Count(fmt.Sprintf("concurrent.ok=%d", okN.Load()))
				info := map[string]interface{}{"section": "notary", "scenario": "concurrent-duplicates", "ok": okN.Load(), "sealed": sealedN}
				if sealedN > 1 || okN.Load() > 1 || e.acc.oks.Load()-before > 1 {
					c.Violate("C16", "sealed-more-than-once", fmt.Sprintf("8 concurrent confirm/reject calls: %d succeeded, %d vertices carry the transaction", okN.Load(), sealedN), info)
				}
				if okN.Load() == 1 && sealedN != 1 {
					c.Violate("C16", "confirmed-but-not-sealed", "one call succeeded but the ledger does not carry the transaction", info)
				}
				// resynchronise the model: replay what happened as one sequential winner
				c.Line("SYNC %s | %s", hexs(t.Hash[:]), trxHashesLine(e))
			}
			e.w.Close()
		}
		c.Sample(map[string]interface{}{"line": "CONFIRM <subject data issuer receiver created cur supp hash isig rsig> | <response> <ledger verdict>", "state": "ST <sealed hashes> | <awaiting hashes>"})
		return nil
	}
}

func trxHashesLine(e *notaryEnv) string {
	snap := e.node.ab.VerifSnapshot()
	var parts []string
	for _, v := range snap.Vertices {
		parts = append(parts, trxFields(&v.Transaction))
	}
	sort.Strings(parts)
	return strings.Join(parts, " ; ")
}
