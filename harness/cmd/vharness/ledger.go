package main

// Ledger world: real AccountingBooks (hook constructor), real wallets, canonical trace output.
// Hashes and addresses are interned to small names (h0 = zero hash); the binding lines
// `H <n> <hex>` / `A <name> <base58>` are informational for the reader of a trace.

import (
	"runtime/debug"
	"sync/atomic"
	"context"
	"errors"
	"fmt"
	"math/big"
	"sort"
	"strings"
	"time"

	"github.com/bartossh/Computantis/src/accountant"
	"github.com/bartossh/Computantis/src/spice"
	"github.com/bartossh/Computantis/src/transaction"
	"github.com/bartossh/Computantis/src/wallet"
	"github.com/heimdalr/dag"
)

type nopLog struct{}

func (nopLog) Debug(string) {}
func (nopLog) Info(string)  {}
func (nopLog) Warn(string)  {}
func (nopLog) Error(string) {}
func (nopLog) Fatal(string) {}

type Node struct {
	id     int
	ab     *accountant.AccountingBook
	w      *wallet.Wallet
	addr   string
	cancel context.CancelFunc
	// oracle bookkeeping
	everSeen map[[32]byte]accountant.Vertex // every vertex ever observed in this node's ledger
	hadChild map[[32]byte]bool
	lastSnap *accountant.VerifSnap
}

type World struct {
	trxSeq int
	c       *Ctx
	nodes   []*Node
	wallets []*wallet.Wallet
	hN      map[[32]byte]int
	aN      map[string]string
	defd    map[[32]byte]bool
	ver     wallet.Helper
	ctx     context.Context
	trusted map[int]map[string]bool
	everTrusted map[int]bool
	quiet bool // build-up phase of big scenarios: no trace lines, no snapshots, no oracles
}

func NewWorld(c *Ctx) *World {
	w := &World{c: c, hN: map[[32]byte]int{{}: 0}, aN: map[string]string{}, defd: map[[32]byte]bool{},
		ver: wallet.NewVerifier(), ctx: context.Background(), trusted: map[int]map[string]bool{}, everTrusted: map[int]bool{}}
	c.Line("# NEWWORLD")
	c.Line("RESET")
	return w
}

func (w *World) Close() {
	for _, n := range w.nodes {
		n.cancel()
	}
	// the stores of closed nodes are garbage from here on; without a nudge the runtime keeps their arenas
	// resident for minutes and a long section grows to 20+ GB (the thorough ledger section peaked at 25 GB and
	// tripped the memory watchdog; with this it stays below 5 GB and runs twice as fast)
	if worldsClosed.Add(1)%20 == 0 {
		debug.FreeOSMemory()
	}
}

var worldsClosed atomic.Int64

func (w *World) H(h [32]byte) int {
	if n, ok := w.hN[h]; ok {
		return n
	}
	n := len(w.hN)
	w.hN[h] = n
	w.c.Line("H %d %x", n, h[:])
	return n
}

func (w *World) HB(b []byte) int {
	var h [32]byte
	copy(h[:], b)
	return w.H(h)
}

func (w *World) A(a string) string {
	if a == "" {
		return "-"
	}
	if n, ok := w.aN[a]; ok {
		return n
	}
	n := fmt.Sprintf("a%d", len(w.aN))
	w.aN[a] = n
	if strings.ContainsAny(a, " \n\t") || len(a) > 200 {
		w.c.Line("A %s <%d bytes>", n, len(a))
	} else {
		w.c.Line("A %s %s", n, a)
	}
	return n
}

func (w *World) NewWallet() *wallet.Wallet {
	wl, err := wallet.New()
	if err != nil {
		panic(err)
	}
	w.wallets = append(w.wallets, &wl)
	w.A(wl.Address())
	return &wl
}

func (w *World) NewNode() *Node {
	wl, err := wallet.New()
	if err != nil {
		panic(err)
	}
	ctx, cancel := context.WithCancel(context.Background())
	ab, err := accountant.VerifNewAccountingBook(ctx, accountant.Config{}, w.ver, &wl, nopLog{})
	if err != nil {
		panic(err)
	}
	n := &Node{id: len(w.nodes), ab: ab, w: &wl, addr: wl.Address(), cancel: cancel,
		everSeen: map[[32]byte]accountant.Vertex{}, hadChild: map[[32]byte]bool{}}
	w.nodes = append(w.nodes, n)
	w.trusted[n.id] = map[string]bool{}
	w.c.Line("NEW %d %s", n.id, w.A(n.addr))
	return n
}

func b2i(b bool) int {
	if b {
		return 1
	}
	return 0
}

func (w *World) trxFields(t *transaction.Transaction) string {
	return fmt.Sprintf("%d %s %s %d %d %d", w.H(t.Hash), w.A(t.IssuerAddress), w.A(t.ReceiverAddress),
		t.Spice.Currency, t.Spice.SupplementaryCurrency, b2i(len(t.Data) != 0))
}

// DefV emits the definition of a vertex once and returns its name.
func (w *World) DefV(v *accountant.Vertex) int {
	n := w.H(v.Hash)
	key := vertexKey(v)
	if w.defd[key] {
		return n
	}
	w.defd[key] = true
	vok := accountant.VerifVerifyVertex(v, w.ver) == nil
	w.c.Line("V %d %s %d %d %d %d %s", n, w.A(v.SignerPublicAddress), w.H(v.LeftParentHash), w.H(v.RightParentHash),
		v.Weight, b2i(vok), w.trxFields(&v.Transaction))
	return n
}

// vertexKey distinguishes mutated copies that keep the hash: the model's vertex table is keyed by
// the name, so a mutated copy gets its own definition line right before it is used.
func vertexKey(v *accountant.Vertex) [32]byte {
	var k [32]byte
	copy(k[:], v.Hash[:])
	return k
}

// ReDefV forces a new definition line (used for mutated vertices sharing a hash with an original).
func (w *World) ReDefV(v *accountant.Vertex) int {
	delete(w.defd, vertexKey(v))
	return w.DefV(v)
}

var errTable = []struct {
	err error
	tag string
}{
	{accountant.ErrParentDoesNotExists, "noParent"},
	{accountant.ErrLeafAlreadyExists, "leafExists"},
	{accountant.ErrTrxInVertexAlreadyExists, "trxExists"},
	{accountant.ErrCannotTransferFoundsViaOwnedNode, "ownNode"},
	{accountant.ErrCannotTransferFoundsFromGenesisWallet, "genesisIssuer"},
	{accountant.ErrTrxIsEmpty, "trxEmpty"},
	{accountant.ErrDagIsNotLoaded, "notLoaded"},
	{accountant.ErrDagIsLoaded, "dagLoaded"},
	{accountant.ErrGenesisRejected, "genesisRejected"},
	{accountant.ErrSpiceIsNotCanonical, "notCanonical"},
	{accountant.ErrTransferringFoundsFailure, "transferFailure"},
	{accountant.ErrLeafRejected, "leafRejected"},
	{accountant.ErrNewLeafRejected, "newLeafRejected"},
	{accountant.ErrBalanceCalculationUnexpectedFailure, "balanceFailure"},
	{accountant.ErrUnexpected, "unexpected"},
	{accountant.ErrVertexHashNotfound, "vertexNotFound"},
	{accountant.ErrEntityNotFound, "entityNotFound"},
}

// errTag maps an error to the first sentinel of errTable it wraps (the Lean side applies the same
// priority to its tag lists).
func errTag(err error) string {
	if err == nil {
		return "ok"
	}
	for _, e := range errTable {
		if errors.Is(err, e.err) {
			return e.tag
		}
	}
	var idu dag.IDUnknownError
	if errors.As(err, &idu) {
		return "idUnknown"
	}
	var idd dag.IDDuplicateError
	if errors.As(err, &idd) {
		return "idDuplicate"
	}
	if errors.Is(err, spice.ErrValueOverflow) {
		return "overflow"
	}
	if errors.Is(err, spice.ErrNoSufficientFounds) {
		return "insufficient"
	}
	return "other"
}

// Snap renders the canonical snapshot string compared field by field by the driver.
func (w *World) Snap(n *Node) string {
	s := n.ab.VerifSnapshot()
	n.lastSnap = &s
	var sb strings.Builder
	ints := func(xs []int) string {
		sort.Ints(xs)
		ss := make([]string, len(xs))
		for i, x := range xs {
			ss[i] = fmt.Sprint(x)
		}
		return strings.Join(ss, ",")
	}
	vs := []int{}
	for i := range s.Vertices {
		vs = append(vs, w.DefV(&s.Vertices[i]))
	}
	fmt.Fprintf(&sb, "V=%s", ints(vs))
	es := []string{}
	for _, e := range s.Edges {
		es = append(es, fmt.Sprintf("%d>%d", w.H(e[0]), w.H(e[1])))
	}
	sort.Strings(es)
	fmt.Fprintf(&sb, " E=%s", strings.Join(es, ","))
	is := []string{}
	for k, v := range s.Index {
		is = append(is, fmt.Sprintf("%d:%d", w.H(k), w.HB(v)))
	}
	sort.Strings(is)
	fmt.Fprintf(&sb, " I=%s", strings.Join(is, ","))
	fs := []string{}
	for a, m := range s.CpFunds {
		fs = append(fs, fmt.Sprintf("%s:%d:%d", w.A(a), m.Currency, m.SupplementaryCurrency))
	}
	sort.Strings(fs)
	fmt.Fprintf(&sb, " F=%s", strings.Join(fs, ","))
	cs := []int{}
	for i := range s.CpVertices {
		cs = append(cs, w.DefV(&s.CpVertices[i]))
	}
	fmt.Fprintf(&sb, " C=%s", ints(cs))
	fmt.Fprintf(&sb, " W=%d T=%d", s.Weight, s.Throughput)
	ps := []string{}
	for i := range s.Parked {
		ps = append(ps, fmt.Sprintf("%d:%d", w.DefV(&s.Parked[i].Vrx), s.Parked[i].Repeated))
	}
	fmt.Fprintf(&sb, " P=%s", strings.Join(ps, ",")) // FIFO order is observable: not sorted
	fmt.Fprintf(&sb, " L=%d G=%s", b2i(s.Loaded), w.A(s.Genesis))
	ts := []string{}
	for _, a := range s.Trusted {
		ts = append(ts, w.A(a))
	}
	sort.Strings(ts)
	fmt.Fprintf(&sb, " TR=%s", strings.Join(ts, ","))
	if len(s.OtherKeys) > 0 {
		fmt.Fprintf(&sb, " OTHER=%d", len(s.OtherKeys))
	}
	return sb.String()
}

// ---- operations (each writes one op line `OP args | result | snapshot`) ----

func (w *World) Genesis(n *Node, receiver string, supply spice.Melange) (accountant.Vertex, error) {
	v, err := n.ab.CreateGenesis("Genesis Vertex", supply, []byte{}, receiver)
	name := 0
	if err == nil {
		name = w.DefV(&v)
	}
	w.c.Line("GEN %d %s %d %d %d | %s | %s", n.id, w.A(receiver), supply.Currency, supply.SupplementaryCurrency, name, errTag(err), w.Snap(n))
	w.after(n, "genesis", err)
	return v, err
}

func (w *World) Propose(n *Node, t *transaction.Transaction) (accountant.Vertex, error) {
	if w.quiet {
		return n.ab.CreateLeaf(w.ctx, t)
	}
	tf := w.trxFields(t)
	v, err := n.ab.CreateLeaf(w.ctx, t)
	name := 0
	if err == nil {
		name = w.DefV(&v)
	}
	w.c.Line("PROP %d %s %d | %s | %s", n.id, tf, name, errTag(err), w.Snap(n))
	w.after(n, "propose", err)
	if err == nil && n.lastSnap != nil {
		// C09: a created vertex carries weight max(parent weights) + 1
		wt := map[[32]byte]uint64{}
		for i := range n.lastSnap.Vertices {
			wt[n.lastSnap.Vertices[i].Hash] = n.lastSnap.Vertices[i].Weight
		}
		for i := range n.lastSnap.CpVertices {
			wt[n.lastSnap.CpVertices[i].Hash] = n.lastSnap.CpVertices[i].Weight
		}
		l, okl := wt[v.LeftParentHash]
		r, okr := wt[v.RightParentHash]
		if okl && okr {
			m := l
			if r > m {
				m = r
			}
			w.c.Count("oracle.c09.created-weight")
			if l != r {
				w.c.Count("oracle.c09.created-weight.parents-differ")
			}
			if v.Weight != m+1 {
				w.c.Violate("C09", "created-vertex-weight-not-max-plus-one", fmt.Sprintf("node %d created vertex %x with weight %d over parents of weight %d (left) and %d (right)", n.id, v.Hash[:4], v.Weight, l, r), w.replayInfo(n, "propose"))
			}
		}
		// C09: a created vertex references only tips that were valid: a tip that moves no funds is valid only while
		// both its declared parents are in the live DAG (a parent that was truncated away makes it a dead end)
		live := map[[32]byte]*accountant.Vertex{}
		for i := range n.lastSnap.Vertices {
			live[n.lastSnap.Vertices[i].Hash] = &n.lastSnap.Vertices[i]
		}
		var zero [32]byte
		for _, ph := range [][32]byte{v.LeftParentHash, v.RightParentHash} {
			p := live[ph]
			if p == nil || !zeroSpice(p.Transaction.Spice) {
				continue
			}
			for _, q := range [][32]byte{p.LeftParentHash, p.RightParentHash} {
				if q != zero && live[q] == nil {
					w.c.Violate("C09", "created-on-tip-with-truncated-parent", fmt.Sprintf("node %d created vertex %x on tip %x, which moves no funds and declares parent %x that is no longer in the live DAG", n.id, v.Hash[:4], ph[:4], q[:4]), w.replayInfo(n, "propose"))
				}
			}
		}
	}
	return v, err
}

func (w *World) Add(n *Node, v *accountant.Vertex) error {
	if w.quiet {
		cp := *v
		return n.ab.AddLeaf(w.ctx, &cp)
	}
	name := w.DefV(v)
	cp := *v
	err := n.ab.AddLeaf(w.ctx, &cp)
	w.c.Line("ADD %d %d | %s | %s", n.id, name, errTag(err), w.Snap(n))
	w.after(n, "add", err)
	return err
}

// Seed hands the model the implementation's current state (re-seeded stepping mode, used for ledgers
// with more than a thousand vertices, where replaying the build-up would dominate the run).
func (w *World) Seed(n *Node) {
	w.c.Line("SEED %d | ok | %s", n.id, w.Snap(n))
	w.oracles(n, "load") // initialise the oracle bookkeeping without judging the build-up
}

func (w *World) Retry(n *Node) (bool, error) {
	v, had, err := n.ab.VerifRetryParked(w.ctx)
	if !had {
		w.c.Line("RETRY %d 0 | none | %s", n.id, w.Snap(n))
		return false, nil
	}
	w.c.Line("RETRY %d %d | %s | %s", n.id, w.DefV(&v), errTag(err), w.Snap(n))
	w.after(n, "retry", err)
	return true, err
}

func (w *World) Trust(n *Node, addr string, on bool) {
	if on {
		n.ab.AddTrustedNode(addr)
		w.trusted[n.id][addr] = true
		for _, m := range w.nodes {
			if m.addr == addr { // only an address that seals vertices can put the exemption to use
				w.everTrusted[n.id] = true
			}
		}
	} else {
		n.ab.RemoveTrustedNode(addr)
		delete(w.trusted[n.id], addr)
	}
	w.c.Line("TRUST %d %s %d | ok | %s", n.id, w.A(addr), b2i(on), w.Snap(n))
	w.c.Count("op.trust")
}

func (w *World) Balance(n *Node, addr string) (spice.Melange, error) {
	before := w.Snap(n)
	b, err := n.ab.CalculateBalance(w.ctx, addr)
	after := w.Snap(n)
	w.c.Line("BAL %d %s | %s %d %d | %s", n.id, w.A(addr), errTag(err), b.Spice.Currency, b.Spice.SupplementaryCurrency, after)
	w.c.Rep.Evals++
	w.c.Count("op.balance." + errTag(err))
	if before != after {
		w.c.Violate("C06", "balance-query-changed-ledger", "CalculateBalance changed the ledger snapshot", map[string]interface{}{"seed": w.c.Seed})
	}
	w.balanceOracle(n, addr, b.Spice, err)
	return b.Spice, err
}

// balanceOracle: the reported value must equal checkpoint + in - out over some current tip and its
// ancestors (math/big over the snapshot's graph edges); an error is allowed only if that sum is negative
// for some tip.
func (w *World) balanceOracle(n *Node, addr string, got spice.Melange, err error) {
	s := n.lastSnap
	if s == nil || len(s.Leaves) == 0 {
		return
	}
	live := liveMap(s)
	// the history of a tip is what its vertices DECLARE as parents (as far as those are still live), not
	// whatever edges the node happens to keep
	par := map[[32]byte][][32]byte{}
	for h, v := range live {
		for _, ph := range [][32]byte{v.LeftParentHash, v.RightParentHash} {
			if live[ph] != nil && ph != h {
				par[h] = append(par[h], ph)
			}
		}
	}
	cp := new(big.Int)
	if m, ok := s.CpFunds[addr]; ok {
		cp = bval(m)
	}
	// an independent reference for the checkpointed funds: the net flow of the vertices the node keeps in
	// storage (everything it ever truncated), when its history is complete (genesis vertex known). Not for
	// the genesis issuer, whose debt is clipped at truncation (recorded finding of C07).
	if len(s.CpVertices) > 0 && addr != s.Genesis {
		complete := false
		var cvs []*accountant.Vertex
		for i := range s.CpVertices {
			v := &s.CpVertices[i]
			if isGenesisVertex(v) {
				complete = true
			}
			if live[v.Hash] != nil {
				continue // archived by an interrupted truncation but still in the live DAG: not checkpointed yet
			}
			cvs = append(cvs, v)
		}
		if complete {
			in, out := flow(addr, cvs)
			if ref := new(big.Int).Sub(in, out); ref.Sign() >= 0 {
				cp = ref
			}
		}
	}
	okMatch, negative := false, false
	var refs []string
	for _, tip := range s.Leaves {
		vs := []*accountant.Vertex{live[tip]}
		for a := range ancestorsOf(tip, par) {
			if v := live[a]; v != nil {
				vs = append(vs, v)
			}
		}
		in, out := flow(addr, vs)
		ref := new(big.Int).Add(cp, in)
		ref.Sub(ref, out)
		refs = append(refs, ref.String())
		if ref.Sign() < 0 {
			negative = true
		} else if err == nil && ref.Cmp(bval(got)) == 0 {
			okMatch = true
		}
	}
	info := w.replayInfo(n, "balance")
	switch {
	case err == nil && !canon(got):
		w.c.Violate("C06", "balance-not-canonical", fmt.Sprintf("balance %d:%d is not canonical", got.Currency, got.SupplementaryCurrency), info)
	case err == nil && !okMatch:
		w.c.Violate("C06", "balance-differs-from-reference", fmt.Sprintf("node %d reported %v for %s; reference per tip %v", n.id, bval(got), w.A(addr), refs), info)
	case err != nil && !negative:
		key := "balance-error-on-nonnegative-sum"
		if errors.Is(err, spice.ErrValueOverflow) {
			// the code adds all inflow before subtracting: lifetime inflow beyond 2^64 units overflows
			key = "balance-inflow-overflow-on-representable-sum"
		}
		w.c.Violate("C06", key, fmt.Sprintf("node %d reported %v for %s although the reference sums per tip are %v", n.id, err, w.A(addr), refs), info)
	}
}

func (w *World) Truncate(n *Node) error {
	err := n.ab.VerifTruncate(w.ctx)
	w.c.Line("TRUNC %d | %s | %s", n.id, errTag(err), w.Snap(n))
	w.after(n, "truncate", err)
	return err
}

// Stream returns the vertices in the order the real StreamDAG produced them.
func (w *World) Stream(n *Node) []*accountant.Vertex {
	var out []*accountant.Vertex
	names := []string{}
	for v := range n.ab.StreamDAG(w.ctx) {
		if v == nil {
			break
		}
		out = append(out, v)
		names = append(names, fmt.Sprint(w.DefV(v)))
	}
	w.c.Line("STREAM %d %s | ok | %s", n.id, strings.Join(names, ","), w.Snap(n))
	w.c.Rep.Evals++
	w.c.Count("op.stream")
	return out
}

// Load feeds the given vertices through the channel API exactly as gossip.updateDag does.
func (w *World) Load(n *Node, vs []*accountant.Vertex) error {
	names := []string{}
	for _, v := range vs {
		names = append(names, fmt.Sprint(w.DefV(v)))
	}
	ch := make(chan *accountant.Vertex, len(vs)+1)
	for _, v := range vs {
		cp := *v
		ch <- &cp
	}
	close(ch)
	ctx, cancel := context.WithCancelCause(context.Background())
	n.ab.LoadDag(cancel, ch)
	var err error
	if ctx.Err() != nil {
		err = context.Cause(ctx)
	}
	cancel(nil)
	snap := w.Snap(n)
	if err != nil {
		// after a failed load the set of edges already linked depends on Go's map iteration order
		if i := strings.Index(snap, " E="); i >= 0 {
			j := strings.Index(snap[i+1:], " ")
			snap = snap[:i] + " E=?" + snap[i+1+j:]
		}
	}
	nl := strings.Join(names, ",")
	if nl == "" {
		nl = "-" // a stream that delivered nothing
	}
	w.c.Line("LOAD %d %s | %s | %s", n.id, nl, errTag(err), snap)
	w.after(n, "load", err)
	return err
}

func (w *World) ReadV(n *Node, h [32]byte) (accountant.Vertex, error) {
	v, err := n.ab.ReadVertex(w.ctx, h)
	got := 0
	if err == nil {
		got = w.DefV(&v)
	}
	w.c.Line("READV %d %d | %s %d | %s", n.id, w.H(h), errTag(err), got, w.Snap(n))
	w.c.Rep.Evals++
	w.c.Count("op.readv." + errTag(err))
	return v, err
}

func (w *World) ReadT(n *Node, h [32]byte) (transaction.Transaction, error) {
	t, err := n.ab.ReadTransactionByHash(w.ctx, h)
	tag := "ok"
	if err != nil {
		tag = "notfound"
	}
	got := 0
	if err == nil {
		got = w.H(t.Hash)
	}
	w.c.Line("READT %d %d | %s %d | %s", n.id, w.H(h), tag, got, w.Snap(n))
	w.c.Rep.Evals++
	w.c.Count("op.readt." + tag)
	return t, err
}

func (w *World) after(n *Node, op string, err error) {
	w.c.Rep.Evals++
	w.c.Count("op." + op + "." + errTag(err))
	w.oracles(n, op)
}

// ---- helpers for generators ----

func (w *World) NewTrx(issuer *wallet.Wallet, receiver string, amt spice.Melange, data []byte) transaction.Transaction {
	// subjects and creation times vary: neither plays a role in what a node does with a transaction
	w.trxSeq++
	subject := trxSubjects[w.trxSeq%len(trxSubjects)]
	t, err := transaction.New(subject, amt, data, receiver, issuer)
	if err != nil {
		panic(err)
	}
	if off := trxTimeOffsets[(w.trxSeq/3)%len(trxTimeOffsets)]; off != 0 {
		t.CreatedAt = t.CreatedAt.Add(off)
		t.Hash, t.IssuerSignature = issuer.Sign(t.GetMessage())
	}
	// distinct nanosecond timestamps keep hashes distinct on fast machines
	time.Sleep(time.Microsecond)
	return t
}

var trxSubjects = []string{"s", "payment 42", " memo", "x\n", "subject with spaces ", "\u00e9t\u00e9", "S", "a much longer subject line that says what the transfer is for, with punctuation: ;,.!?"}
var trxTimeOffsets = []time.Duration{0, 0, 0, -2 * time.Minute, 0, 0, 3 * time.Minute, 0, -72 * time.Hour, 0, 0, 72 * time.Hour, 0, -400 * 24 * time.Hour}

func mval(m spice.Melange) *big.Int { return bval(m) }
