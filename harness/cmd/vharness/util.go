package main

import (
	"encoding/json"
	"os"
)

func readJSON(path string, v interface{}) error {
	b, err := os.ReadFile(path)
	if err != nil {
		return err
	}
	// a replay file is either the bare replay object or {"replay": {...}, ...}
	var wrap struct {
		Replay json.RawMessage `json:"replay"`
	}
	if json.Unmarshal(b, &wrap) == nil && len(wrap.Replay) > 0 {
		return json.Unmarshal(wrap.Replay, v)
	}
	return json.Unmarshal(b, v)
}
