"""Per-property configuration for bin/check."""

ALLOWED_AXIOMS = {"propext", "Classical.choice", "Quot.sound"}

TRUSTED_BASE = [
    "Lean 4.33.0 kernel (leanchecker re-check in the thorough tier)",
    "axioms allowed: propext, Classical.choice, Quot.sound; no sorry/admit/native_decide/bv_decide/implemented_by/unsafe (grep + per-theorem audit)",
    "fact translator harness/cmd/vfacts (go/ast, regenerates lean/CModel/Generated on every run)",
    "correspondence harness harness/cmd/vharness (drives the real code in-process) + compiled Lean driver cdriver",
    "Go toolchain, sha256/ed25519/AES-GCM, badger, bigcache, protobuf, msgpack libraries: modelled or assumed, not verified",
]

LEDGER_ASSUME = [
    "each public ledger call is one atomic step of the model (all graph/index mutations of a call lie inside one ab.mux.Lock region)",
    "vertex signature verification is the field `vok` in ledger traces (reported by the implementation's own verifier; the byte-level model of verify is checked under C04)",
    "hash of a freshly sealed vertex does not collide with a checkpointed vertex (SHA-256 collision freedom)",
]
LEDGER_NOT_MODELLED = ["goroutine scheduling inside one call", "badger/bigcache internals", "backup file written by truncate", "wall-clock time stamps (signed content only)"]

PROPS = {
    "C05": {
        "level": "proof",
        "lean_targets": ["Properties.C05"],
        "namespaces": ["Props.C05"],
        "required_theorems": ["Props.C05.supply_exact", "Props.C05.supply_atomic", "Props.C05.supply_err_iff",
                              "Props.C05.transfer_exact", "Props.C05.transfer_atomic", "Props.C05.transfer_err_iff",
                              "Props.C05.history_conserves", "Props.C05.gen_maxSupp"],
        "sections": [{"name": "c05", "driver": "c05"}],
        "partial": [],
        "assumptions": ["model CModel/Spice.lean is spice.go statement for statement; tied by differential traces over the boundary product and by the generated constant"],
        "not_modelled": ["FromFloat / String formatting (not part of the property)"],
    },
    "C03": {
        "level": "proof",
        "lean_targets": ["Properties.C03"],
        "namespaces": ["Props.C03"],
        "required_theorems": ["Props.C03.no_duplicate_vertex", "Props.C03.no_duplicate_transaction", "Props.C03.index_exact",
                              "Props.C03.index_no_dangling", "Props.C03.readd_rejected", "Props.C03.resubmit_transaction_rejected",
                              "Props.C03.reproposable", "Props.C03.b2_reachable"],
        "sections": [{"name": "ledger", "driver": "ledger"}],
        "partial": ["concurrent duplicates: the pre-lock lookup / locked body interleaving is covered by the atomic re-check in saveTrxInVertex (modelled as indexSave) - no separate interleaving theorem yet",
                    "truncation and loadDag are not constructors of Reachable yet (their preservation theorems are under C07/C14)"],
        "assumptions": LEDGER_ASSUME, "not_modelled": LEDGER_NOT_MODELLED,
    },
    "C10": {
        "level": "proof",
        "lean_targets": ["Properties.C10"],
        "namespaces": ["Props.C10"],
        "required_theorems": ["Props.C10.sealing_rules", "Props.C10.genesis_not_to_self", "Props.C10.parked_passed_guards",
                              "Props.C10.self_sealed_rejected", "Props.C10.empty_rejected", "Props.C10.genesis_issuer_rejected"],
        "sections": [{"name": "ledger", "driver": "ledger"}],
        "partial": ["ledgers obtained by loadDag: only 'at most one self-sealed vertex, no empty transaction' is checked by the code; stated under an honest-peer hypothesis in C14"],
        "assumptions": LEDGER_ASSUME, "not_modelled": LEDGER_NOT_MODELLED,
    },
    "C01": {
        "level": "proof",
        "lean_targets": ["Properties.C01"],
        "namespaces": ["Props.C01"],
        "required_theorems": ["Props.C01.validated_means_covered", "Props.C01.covered_means_validated",
                              "Props.C01.propose_confirms_only_validated", "Props.C01.gossip_confirms_only_validated",
                              "Props.C01.retry_confirms_only_validated", "Props.C01.failing_tip_dropped"],
        "sections": [{"name": "ledger", "driver": "ledger"}, {"name": "conflict", "driver": "ledger"}],
        "partial": ["the inequality is stated relative to the intermediate book in which the parent was validated (ValidatedIn/CheckedIn); stability of a vertex' ancestor set under later steps is not proved yet",
                    "root exemption (validateLeaf returns ok for any vertex without inbound edges before looking at funds) is kept visible as a disjunct: after truncation a stale tip whose parents were checkpointed is such a root",
                    "truncation ('or checkpointed') is covered under C07"],
        "assumptions": LEDGER_ASSUME, "not_modelled": LEDGER_NOT_MODELLED,
    },
    "C02": {
        "level": "proof",
        "lean_targets": ["Properties.C02"],
        "namespaces": ["Props.C02"],
        "required_theorems": ["Props.C02.supply_identity", "Props.C02.balances_sum_to_supply", "Props.C02.merge_refuted",
                              "Props.C02.per_history_partial"],
        "sections": [{"name": "conflict", "driver": "ledger"}, {"name": "ledger", "driver": "ledger"}],
        "partial": ["full statement (no wallet overdrawn over the union of confirmed vertices) is REFUTED for the model and the code: Props.C02.merge_refuted; known finding merge-of-conflicting-tips",
                    "proved instead: supply identity for any vertex set; per-history coverage (C01)"],
        "assumptions": LEDGER_ASSUME, "not_modelled": LEDGER_NOT_MODELLED,
    },
    "C06": {
        "level": "proof",
        "lean_targets": ["Properties.C06"],
        "namespaces": ["Props.C06"],
        "required_theorems": ["Props.C06.balance_exact", "Props.C06.balance_error", "Props.C06.negative_is_error",
                              "Props.C06.balance_deterministic"],
        "sections": [{"name": "ledger", "driver": "ledger"}, {"name": "conflict", "driver": "ledger"}],
        "partial": ["error side carries the extra 'partial sum not representable' disjuncts (the code adds all inflow before subtracting)",
                    "single-tip corollary (balance over all confirmed vertices) needs the ancestors=reachability lemma, not proved yet",
                    "read-only-ness of the implementation's query is checked by the correspondence (snapshot before/after every BAL), the model's query is a pure function"],
        "assumptions": LEDGER_ASSUME + ["the tip a query walks is chosen by Go map iteration: the driver accepts the result iff it equals the model's result for some current tip"],
        "not_modelled": LEDGER_NOT_MODELLED,
    },
}
