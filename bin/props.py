"""Per-property configuration for bin/check."""

ALLOWED_AXIOMS = {"propext", "Classical.choice", "Quot.sound"}

TRUSTED_BASE = [
    "Lean 4.33.0 kernel (leanchecker re-check in the thorough tier)",
    "axioms allowed: propext, Classical.choice, Quot.sound; no sorry/admit/native_decide/bv_decide/implemented_by/unsafe (grep + per-theorem audit)",
    "fact translator harness/cmd/vfacts (go/ast, regenerates lean/CModel/Generated on every run)",
    "correspondence harness harness/cmd/vharness (drives the real code in-process) + compiled Lean driver cdriver",
    "Go toolchain, sha256/ed25519/AES-GCM, badger, bigcache, protobuf, msgpack libraries: modelled or assumed, not verified",
]

PROPS = {
    "C05": {
        "level": "proof",
        "lean_targets": ["Properties.C05"],
        "namespaces": ["Props.C05"],
        "required_theorems": ["Props.C05.supply_exact", "Props.C05.supply_atomic", "Props.C05.supply_err_iff",
                              "Props.C05.transfer_exact", "Props.C05.transfer_atomic", "Props.C05.transfer_err_iff",
                              "Props.C05.history_conserves", "Props.C05.gen_maxSupp"],
        "sections": [{"name": "c05", "driver": "c05"}],
        "partial": [],
        "assumptions": ["model CModel/Spice.lean is spice.go statement for statement; tied by differential traces over the boundary product and by the generated constant"],
        "not_modelled": ["FromFloat / String formatting (not part of the property)"],
    },
}
